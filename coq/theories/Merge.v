(* Model for C12: fakesnow's MERGE (transforms_merge.py:16-203 + cursor.py:145-148) as relational
   algebra on lists, next to Snowflake's row-wise MERGE semantics.
   Rows are lists of nullable integers; ON is a conjunction of  t.i = s.j  equalities; clause
   conditions are three-valued predicates over the joined pair; SET / VALUES expressions are source
   columns or constants (the only forms the code supports: transforms_merge.py:68,77). *)
From FS Require Import Sexp.

Definition val := option Z.
Definition row := list val.
Definition col (r : row) (i : nat) : val := nth i r None.

Inductive side := Tgt | Src.
Inductive cond :=
| CTrue
| CCmp (sd : side) (i : nat) (op : Z) (c : Z)       (* column  op  constant;  op 0 '='  1 '<'  2 '>'  3 '<>' *)
| CCol (i j : nat) (op : Z)                         (* t.i  op  s.j *)
| CIsNull (sd : side) (i : nat)
| CAnd (a b : cond) | COr (a b : cond) | CNot (a : cond).

Definition cmpz (op x y : Z) : bool :=
  if op =? 0 then x =? y else if op =? 1 then x <? y else if op =? 2 then y <? x else negb (x =? y).
Definition and3 (a b : option bool) : option bool :=
  match a, b with
  | Some false, _ | _, Some false => Some false
  | Some true, Some true => Some true
  | _, _ => None
  end.
Definition or3 (a b : option bool) : option bool :=
  match a, b with
  | Some true, _ | _, Some true => Some true
  | Some false, Some false => Some false
  | _, _ => None
  end.
Definition pick (sd : side) (t s : row) : row := match sd with Tgt => t | Src => s end.

Fixpoint ceval (c : cond) (t s : row) : option bool :=
  match c with
  | CTrue => Some true
  | CCmp sd i op k => match col (pick sd t s) i with Some x => Some (cmpz op x k) | None => None end
  | CCol i j op => match col t i, col s j with Some x, Some y => Some (cmpz op x y) | _, _ => None end
  | CIsNull sd i => Some (match col (pick sd t s) i with None => true | Some _ => false end)
  | CAnd a b => and3 (ceval a t s) (ceval b t s)
  | COr a b => or3 (ceval a t s) (ceval b t s)
  | CNot a => option_map negb (ceval a t s)
  end.
Definition holds (c : cond) (t s : row) : bool := match ceval c t s with Some true => true | _ => false end.

Inductive sval := SCol (j : nat) | SConst (v : val).
Definition sv (e : sval) (s : row) : val := match e with SCol j => col s j | SConst v => v end.

Inductive clause :=
| MUpdate (c : cond) (asg : list (nat * sval))
| MDelete (c : cond)
| NInsert (c : cond) (cols : list nat) (vals : list sval).
Record merge := { on : list (nat * nat); clauses : list clause; width : nat }.

Definition is_matched (c : clause) : bool := match c with NInsert _ _ _ => false | _ => true end.
Definition ccond (c : clause) : cond := match c with MUpdate c _ | MDelete c | NInsert c _ _ => c end.

(* SQL equality: NULL never matches *)
Definition eqv (a b : val) : bool := match a, b with Some x, Some y => x =? y | _, _ => false end.
Definition joins (o : list (nat * nat)) (t s : row) : bool :=
  forallb (fun p => eqv (col t (fst p)) (col s (snd p))) o.

(* CASE WHEN ... THEN w_idx: index of the first clause of the given kind whose predicate is TRUE
   (transforms_merge.py:50-81); matched clauses test  ON AND cond  - TRUE only on joined pairs -,
   not-matched clauses test  target.rowid IS NULL AND cond  - on source rows without partner, whose
   target columns are all NULL (the empty row here) *)
Fixpoint first_op (kind : bool) (cls : list clause) (w : nat) (t s : row) : option nat :=
  match cls with
  | [] => None
  | c :: rest => if Bool.eqb (is_matched c) kind && holds (ccond c) t s then Some w
                 else first_op kind rest (S w) t s
  end.
Definition op_m (m : merge) (t s : row) : option nat := first_op true (clauses m) 0 t s.
Definition op_n (m : merge) (s : row) : option nat := first_op false (clauses m) 0 [] s.
Definition unmatched (m : merge) (tgt : list row) (s : row) : bool := negb (existsb (fun t => joins (on m) t s) tgt).

(* merge_candidates: FULL OUTER JOIN ... WHERE merge_op IS NOT NULL; only source columns are kept *)
Definition cand := (row * nat)%type.
Definition cands_m (m : merge) (tgt src : list row) : list cand :=
  flat_map (fun t => flat_map (fun s => if joins (on m) t s then match op_m m t s with Some w => [(s, w)] | None => [] end else []) src) tgt.
Definition cands_n (m : merge) (tgt src : list row) : list cand :=
  flat_map (fun s => if unmatched m tgt s then match op_n m s with Some w => [(s, w)] | None => [] end else []) src.
Definition cands (m : merge) (tgt src : list row) : list cand := cands_m m tgt src ++ cands_n m tgt src.

Fixpoint set_nth (r : row) (i : nat) (v : val) : row :=
  match r, i with
  | [], _ => []
  | _ :: r', O => v :: r'
  | x :: r', S i' => x :: set_nth r' i' v
  end.
Definition apply_asg (asg : list (nat * sval)) (t s : row) : row :=
  fold_left (fun r a => set_nth r (fst a) (sv (snd a) s)) asg t.
Definition mkrow (w : nat) (cols : list nat) (vals : list sval) (s : row) : row :=
  map (fun i => match find (fun cv => Nat.eqb (fst cv) i) (combine cols vals) with
                | Some cv => sv (snd cv) s | None => None end) (seq 0 w).

(* the re-join of each mutation statement against merge_candidates (transforms_merge.py:119-156):
   DELETE FROM t USING merge_candidates AS s WHERE <ON> AND s.merge_op = w, etc. *)
Definition hit (o : list (nat * nat)) (cs : list cand) (w : nat) (t : row) : option row :=
  option_map fst (find (fun c => Nat.eqb (snd c) w && joins o t (fst c)) cs).

Definition mutate (m : merge) (cs : list cand) (w : nat) (cl : clause) (cur : list row) : list row :=
  match cl with
  | MDelete _ => filter (fun t => match hit (on m) cs w t with Some _ => false | None => true end) cur
  | MUpdate _ asg => map (fun t => match hit (on m) cs w t with Some s => apply_asg asg t s | None => t end) cur
  | NInsert _ cols vals => cur ++ map (fun c => mkrow (width m) cols vals (fst c)) (filter (fun c => Nat.eqb (snd c) w) cs)
  end.

(* cursor.py:145-148: the exploded statements run one after another on the live table *)
Fixpoint run_clauses (m : merge) (cs : list cand) (w : nat) (cls : list clause) (cur : list row) : list row :=
  match cls with
  | [] => cur
  | cl :: rest => run_clauses m cs (S w) rest (mutate m cs w cl cur)
  end.
Definition fake_target (m : merge) (tgt src : list row) : list row :=
  run_clauses m (cands m tgt src) 0 (clauses m) tgt.

(* _counts: COUNT_IF(merge_op IN (...)) per kind that occurs, NULL over an empty candidates table *)
Inductive kind := KIns | KUpd | KDel.
Definition kind_of (c : clause) : kind := match c with MUpdate _ _ => KUpd | MDelete _ => KDel | NInsert _ _ _ => KIns end.
Definition kind_eqb (a b : kind) : bool :=
  match a, b with KIns, KIns | KUpd, KUpd | KDel, KDel => true | _, _ => false end.
Definition op_kind (m : merge) (w : nat) : option kind := option_map kind_of (nth_error (clauses m) w).
Definition count_kind (m : merge) (cs : list cand) (k : kind) : nat :=
  length (filter (fun c => match op_kind m (snd c) with Some k' => kind_eqb k k' | None => false end) cs).
Definition has_kind (m : merge) (k : kind) : bool := existsb (fun c => kind_eqb k (kind_of c)) (clauses m).
Definition fake_counts (m : merge) (tgt src : list row) : list (kind * option nat) :=
  let cs := cands m tgt src in
  flat_map (fun k => if has_kind m k then [(k, match cs with [] => None | _ => Some (count_kind m cs k) end)] else [])
           [KIns; KUpd; KDel].

(* state after the first k exploded mutation statements (a failure after k statements leaves this) *)
Definition fake_prefix (m : merge) (tgt src : list row) (k : nat) : list row :=
  run_clauses m (cands m tgt src) 0 (firstn k (clauses m)) tgt.

(* ------------------------------------------------------------------ Snowflake's MERGE, row by row *)
Definition spec_row (m : merge) (src : list row) (t : row) : list row :=      (* [] = the row is deleted *)
  match filter (joins (on m) t) src with
  | s :: _ =>
      match op_m m t s with
      | Some w => match nth_error (clauses m) w with
                  | Some (MUpdate _ asg) => [apply_asg asg t s]
                  | Some (MDelete _) => []
                  | _ => [t]
                  end
      | None => [t]
      end
  | [] => [t]
  end.
Fixpoint spec_inserts (m : merge) (tgt src : list row) (w : nat) (cls : list clause) : list row :=
  match cls with
  | [] => []
  | cl :: rest =>
      match cl with
      | NInsert _ cols vals =>
          map (mkrow (width m) cols vals)
              (filter (fun s => unmatched m tgt s && match op_n m s with Some w' => Nat.eqb w' w | None => false end) src)
      | _ => []
      end ++ spec_inserts m tgt src (S w) rest
  end.
Definition spec_target (m : merge) (tgt src : list row) : list row :=
  flat_map (spec_row m src) tgt ++ spec_inserts m tgt src 0 (clauses m).

Definition row_kind (m : merge) (src : list row) (t : row) : option kind :=
  match filter (joins (on m) t) src with
  | s :: _ => match op_m m t s with Some w => op_kind m w | None => None end
  | [] => None
  end.
Definition spec_count (m : merge) (tgt src : list row) (k : kind) : nat :=
  match k with
  | KIns => length (filter (fun s => unmatched m tgt s && match op_n m s with Some _ => true | None => false end) src)
  | _ => length (filter (fun t => match row_kind m src t with Some k' => kind_eqb k k' | None => false end) tgt)
  end.
Definition spec_counts (m : merge) (tgt src : list row) : list (kind * option nat) :=
  flat_map (fun k => if has_kind m k then [(k, Some (spec_count m tgt src k))] else []) [KIns; KUpd; KDel].

(* ------------------------------------------------------------------ the domain of the theorem *)
(* deterministic merge: no target row joins more than one source row *)
Definition deterministic (m : merge) (tgt src : list row) : bool :=
  forallb (fun t => Nat.leb (length (filter (joins (on m) t) src)) 1) tgt.
(* target rows sharing a source partner are sent to the same clause (true when conditions mention
   only source columns, or when no two target rows share a key) *)
Definition op_consistent (m : merge) (tgt src : list row) : bool :=
  forallb (fun s => forallb (fun t1 => forallb (fun t2 =>
    if joins (on m) t1 s && joins (on m) t2 s
    then match op_m m t1 s, op_m m t2 s with
         | Some a, Some b => Nat.eqb a b | None, None => true | _, _ => false end
    else true) tgt) tgt) src.
(* no SET assigns a column that ON compares *)
Definition no_key_assign (m : merge) : bool :=
  forallb (fun cl => match cl with
                     | MUpdate _ asg => forallb (fun a => negb (existsb (fun p => Nat.eqb (fst p) (fst a)) (on m))) asg
                     | _ => true end) (clauses m).
(* WHEN NOT MATCHED clauses are written after all WHEN MATCHED clauses *)
Fixpoint inserts_last (cls : list clause) : bool :=
  match cls with
  | [] => true
  | c :: rest => if is_matched c then inserts_last rest else forallb (fun c' => negb (is_matched c')) rest
  end.
Definition dom (m : merge) (tgt src : list row) : bool :=
  deterministic m tgt src && op_consistent m tgt src && no_key_assign m && inserts_last (clauses m).

(* ------------------------------------------------------------------ sexp *)
Definition dec_val (x : sexp) : option val := dec_opt dec_z x.
Definition dec_row (x : sexp) : option row := dec_list dec_val x.
Definition dec_side (x : sexp) : option side := match x with A 0 => Some Tgt | A 1 => Some Src | _ => None end.
Fixpoint dec_cond (x : sexp) : option cond :=
  match x with
  | L [A 0] => Some CTrue
  | L [A 1; sd; i; A op; A k] => match dec_side sd, dec_nat i with Some sd, Some i => Some (CCmp sd i op k) | _, _ => None end
  | L [A 2; i; j; A op] => match dec_nat i, dec_nat j with Some i, Some j => Some (CCol i j op) | _, _ => None end
  | L [A 3; sd; i] => match dec_side sd, dec_nat i with Some sd, Some i => Some (CIsNull sd i) | _, _ => None end
  | L [A 4; a; b] => match dec_cond a, dec_cond b with Some a, Some b => Some (CAnd a b) | _, _ => None end
  | L [A 5; a; b] => match dec_cond a, dec_cond b with Some a, Some b => Some (COr a b) | _, _ => None end
  | L [A 6; a] => option_map CNot (dec_cond a)
  | _ => None
  end.
Definition dec_sval (x : sexp) : option sval :=
  match x with
  | L [A 0; j] => option_map SCol (dec_nat j)
  | L [A 1; v] => option_map SConst (dec_val v)
  | _ => None
  end.
Definition dec_asg (x : sexp) : option (nat * sval) :=
  match x with L [i; e] => match dec_nat i, dec_sval e with Some i, Some e => Some (i, e) | _, _ => None end | _ => None end.
Definition dec_clause (x : sexp) : option clause :=
  match x with
  | L [A 0; c; asg] => match dec_cond c, dec_list dec_asg asg with Some c, Some a => Some (MUpdate c a) | _, _ => None end
  | L [A 1; c] => option_map MDelete (dec_cond c)
  | L [A 2; c; cols; vals] => match dec_cond c, dec_list dec_nat cols, dec_list dec_sval vals with
                              | Some c, Some cs, Some vs => Some (NInsert c cs vs) | _, _, _ => None end
  | _ => None
  end.
Definition dec_pair (x : sexp) : option (nat * nat) :=
  match x with L [i; j] => match dec_nat i, dec_nat j with Some i, Some j => Some (i, j) | _, _ => None end | _ => None end.
Definition dec_merge (x : sexp) : option merge :=
  match x with
  | L [o; cls; w] => match dec_list dec_pair o, dec_list dec_clause cls, dec_nat w with
                     | Some o, Some cls, Some w => Some {| on := o; clauses := cls; width := w |}
                     | _, _, _ => None end
  | _ => None
  end.
Definition enc_val (v : val) : sexp := enc_opt A v.
Definition enc_row (r : row) : sexp := enc_list enc_val r.
Definition enc_kind (k : kind) : sexp := A (match k with KIns => 0 | KUpd => 1 | KDel => 2 end).
Definition enc_counts (l : list (kind * option nat)) : sexp :=
  enc_list (fun p => L [enc_kind (fst p); enc_opt enc_nat (snd p)]) l.

(* input: (merge target-rows source-rows)
   output: (fake-target fake-counts candidates dom spec-target spec-counts) - rows in statement order,
   the harness compares them as multisets *)
Definition run_c12 (x : sexp) : sexp :=
  match x with
  | L [m; tgt; src] =>
      match dec_merge m, dec_list dec_row tgt, dec_list dec_row src with
      | Some m, Some tgt, Some src =>
          L [enc_list enc_row (fake_target m tgt src);
             enc_counts (fake_counts m tgt src);
             enc_list (fun c => L [enc_row (fst c); enc_nat (snd c)]) (cands m tgt src);
             enc_bool (dom m tgt src);
             enc_list enc_row (spec_target m tgt src);
             enc_counts (spec_counts m tgt src)]
      | _, _, _ => bad
      end
  | _ => bad
  end.
(* input: (merge target source k) ; output: the target after the first k mutation statements *)
Definition run_c12_prefix (x : sexp) : sexp :=
  match x with
  | L [m; tgt; src; k] =>
      match dec_merge m, dec_list dec_row tgt, dec_list dec_row src, dec_nat k with
      | Some m, Some tgt, Some src, Some k => enc_list enc_row (fake_prefix m tgt src k)
      | _, _, _, _ => bad
      end
  | _ => bad
  end.
