(* Model for C09: the bookkeeping behind fakesnow's metadata answers. DuckDB keeps the live catalog
   (tables, columns, types); what it cannot keep - table comments and declared VARCHAR lengths - goes to
   the side tables _fs_tables_ext / _fs_columns_ext (info_schema.py:8-32), written by cursor.py:329-355
   (after fixes 249cf77, ca4ef8a, d04f18a, 6836b10, 8d29e50) and read back by _fs_columns_snowflake / the tables_ext join
   (info_schema.py:36-80, transforms.py:583-622) and DESCRIBE TABLE (transforms.py:147-221).
   The live list also carries, as ghost data, what the user declared for the CURRENT incarnation of each
   table: that is what Snowflake would report. Names arrive normalised (C02). *)
From FS Require Import Sexp.

Definition key := list str.                       (* [db; schema; table] or [db; schema; table; column] *)
Fixpoint key_eqb (a b : key) : bool :=
  match a, b with
  | [], [] => true
  | x :: a', y :: b' => str_eqb x y && key_eqb a' b'
  | _, _ => false
  end.

(* an entry of a side table = a row whose value columns are not NULL: since 8d29e50 rows are emptied (SET ... = NULL), not
   deleted, and a row with NULL values answers exactly like no row through the LEFT JOINs that read the tables *)
Definition amap (X : Type) := list (key * X).
Fixpoint lookup {X} (m : amap X) (k : key) : option X :=
  match m with [] => None | (k', v) :: r => if key_eqb k' k then Some v else lookup r k end.
Definition remove_if {X} (P : key -> bool) (m : amap X) : amap X := filter (fun p => negb (P (fst p))) m.
Definition upsert {X} (m : amap X) (k : key) (v : X) : amap X := (k, v) :: remove_if (key_eqb k) m.

Inductive ctype := TText (declared : option Z) | TOther (code : Z).
Record coldef := { cname : str; cty : ctype }.
Record tdecl := { tcols : list coldef; tcomment : option str }.

Record state := {
  live : amap tdecl;          (* DuckDB's catalog + ghost declarations, keyed [db; schema; table] *)
  side_c : amap str;          (* _fs_tables_ext : table key -> comment *)
  side_l : amap Z             (* _fs_columns_ext : table key ++ [column] -> character_maximum_length *)
}.
Definition init : state := {| live := []; side_c := []; side_l := [] |}.

Inductive op :=
| Create (replace : bool) (k : key) (cols : list coldef) (comment : option str)
| Drop (k : key)
| DropSchema (d s : str)
| SetComment (k : key) (c : str)                  (* COMMENT ON TABLE / ALTER TABLE SET COMMENT *)
| AddColumn (k : key) (c : coldef)
| DropColumn (k : key) (c : str)
| RenameColumn (k : key) (c c' : str)
| RenameTable (k k' : key)
| Clone (k src : key).                            (* CLONE / CREATE TABLE AS SELECT * *)

Definition max_len : Z := 16777216.
Definition dflt (d : option Z) : Z := match d with Some n => n | None => max_len end.

Definition of_table (k key' : key) : bool := key_eqb (firstn 3 key') k.
Definition of_schema (d s : str) (key' : key) : bool :=
  match key' with d' :: s' :: _ => str_eqb d' d && str_eqb s' s | _ => false end.

Definition find_col (cols : list coldef) (c : str) : option coldef := find (fun x => str_eqb (cname x) c) cols.
Fixpoint nodup_names (cols : list coldef) : bool :=
  match cols with
  | [] => true
  | x :: r => negb (existsb (fun y => str_eqb (cname y) (cname x)) r) && nodup_names r
  end.

(* insert_text_lengths_sql: one upsert per VARCHAR/TEXT column of the statement (extract_text_length) *)
Definition put_lengths (k : key) (cols : list coldef) (m : amap Z) : amap Z :=
  fold_right (fun c acc => match cty c with TText d => upsert acc (k ++ [cname c]) (dflt d) | TOther _ => acc end) m cols.
Definition put_comment (k : key) (c : option str) (m : amap str) : amap str :=
  match c with Some x => upsert m k x | None => m end.

(* UPDATE ... SET ext_column_name / ext_table_name: every row's key goes through f *)
Definition rekey {X} (f : key -> key) (m : amap X) : amap X := map (fun p => (f (fst p), snd p)) m.
Definition recol (k : key) (c c' : str) (key' : key) : key := if key_eqb key' (k ++ [c]) then k ++ [c'] else key'.
Definition retable (k k' : key) (key' : key) : key := if of_table k key' then k' ++ skipn 3 key' else key'.

Definition rename_col (cols : list coldef) (c c' : str) : list coldef :=
  map (fun x => if str_eqb (cname x) c then {| cname := c'; cty := cty x |} else x) cols.

(* a statement DuckDB rejects changes nothing (C07) *)
Definition step (st : state) (o : op) : state :=
  match o with
  | Create replace k cols cm =>
      if negb (nodup_names cols) || (match lookup (live st) k with Some _ => negb replace | None => false end) then st
      else
        let sc := if replace then remove_if (of_table k) (side_c st) else side_c st in
        let sl := if replace then remove_if (of_table k) (side_l st) else side_l st in
        {| live := upsert (live st) k {| tcols := cols; tcomment := cm |};
           side_c := put_comment k cm sc; side_l := put_lengths k cols sl |}
  | Drop k =>
      match lookup (live st) k with
      | None => st
      | Some _ => {| live := remove_if (key_eqb k) (live st); side_c := remove_if (of_table k) (side_c st);
                     side_l := remove_if (of_table k) (side_l st) |}
      end
  | DropSchema d s =>
      {| live := remove_if (of_schema d s) (live st); side_c := remove_if (of_schema d s) (side_c st);
         side_l := remove_if (of_schema d s) (side_l st) |}
  | SetComment k c =>
      match lookup (live st) k with
      | None => (* the statement became a no-op carrying the comment: recorded although the table does not exist *)
                {| live := live st; side_c := upsert (side_c st) k c; side_l := side_l st |}
      | Some t => {| live := upsert (live st) k {| tcols := tcols t; tcomment := Some c |};
                     side_c := upsert (side_c st) k c; side_l := side_l st |}
      end
  | AddColumn k c =>
      match lookup (live st) k with
      | None => st
      | Some t =>
          match find_col (tcols t) (cname c) with
          | Some _ => st
          | None => {| live := upsert (live st) k {| tcols := tcols t ++ [c]; tcomment := tcomment t |};
                       side_c := side_c st; side_l := put_lengths k [c] (side_l st) |}
          end
      end
  | DropColumn k c =>
      match lookup (live st) k with
      | None => st
      | Some t =>
          match find_col (tcols t) c with
          | None => st
          | Some _ =>
              if Nat.leb (length (tcols t)) 1 then st        (* DuckDB refuses to drop the only column *)
              else {| live := upsert (live st) k {| tcols := filter (fun x => negb (str_eqb (cname x) c)) (tcols t); tcomment := tcomment t |};
                      side_c := side_c st; side_l := remove_if (key_eqb (k ++ [c])) (side_l st) |}   (* delete_column_ext_sql *)
          end
      end
  | RenameColumn k c c' =>
      match lookup (live st) k with
      | None => st
      | Some t =>
          match find_col (tcols t) c, find_col (tcols t) c' with
          | Some _, None => {| live := upsert (live st) k {| tcols := rename_col (tcols t) c c'; tcomment := tcomment t |};
                               side_c := side_c st;                                             (* rename_column_ext_sql *)
                               side_l := rekey (recol k c c') (remove_if (key_eqb (k ++ [c'])) (side_l st)) |}
          | _, _ => st
          end
      end
  | RenameTable k k' =>
      match lookup (live st) k, lookup (live st) k' with
      | Some t, None => {| live := upsert (remove_if (key_eqb k) (live st)) k' t;               (* rename_table_ext_sql *)
                           side_c := rekey (retable k k') (remove_if (of_table k') (side_c st));
                           side_l := rekey (retable k k') (remove_if (of_table k') (side_l st)) |}
      | _, _ => st
      end
  | Clone k src =>
      match lookup (live st) src, lookup (live st) k with
      | Some t, None => {| live := upsert (live st) k {| tcols := tcols t; tcomment := None |}; side_c := side_c st; side_l := side_l st |}
      | _, _ => st
      end
  end.

Definition run (h : list op) : state := fold_left step h init.

(* ---- answers ---- *)
(* information_schema.tables.comment (left join with _fs_tables_ext) *)
Definition comment_fake (st : state) (k : key) : option str := lookup (side_c st) k.
Definition comment_spec (st : state) (k : key) : option str :=
  match lookup (live st) k with Some t => tcomment t | None => None end.
(* information_schema.columns.character_maximum_length (left join with _fs_columns_ext) *)
Definition len_fake (st : state) (k : key) (c : str) : option Z := lookup (side_l st) (k ++ [c]).
Definition len_spec (st : state) (k : key) (c : str) : option Z :=
  match lookup (live st) k with
  | Some t => match find_col (tcols t) c with Some {| cty := TText d |} => Some (dflt d) | _ => None end
  | None => None
  end.
(* DESCRIBE TABLE: per column in order, (name, VARCHAR(len) | other type) *)
Definition describe_with (len : str -> option Z) (cols : list coldef) : list (str * (Z + Z)) :=
  map (fun c => (cname c, match cty c with TText _ => inl (dflt (len (cname c))) | TOther z => inr z end)) cols.
Definition describe_fake (st : state) (k : key) : option (list (str * (Z + Z))) :=
  option_map (fun t => describe_with (len_fake st k) (tcols t)) (lookup (live st) k).
Definition describe_spec (st : state) (k : key) : option (list (str * (Z + Z))) :=
  option_map (fun t => describe_with (len_spec st k) (tcols t)) (lookup (live st) k).

(* the statements on which the side tables follow the declarations exactly: CREATE [OR REPLACE] TABLE, DROP TABLE,
   DROP SCHEMA, ALTER TABLE ADD / DROP / RENAME COLUMN, RENAME TO, and comments on existing tables *)
Definition dom_at (st : state) (o : op) : bool :=
  match o with
  | Create _ k _ _ | Drop k | AddColumn k _ | DropColumn k _ | RenameColumn k _ _ => Nat.eqb (length k) 3
  | RenameTable k k' => Nat.eqb (length k) 3 && Nat.eqb (length k') 3 && key_eqb (firstn 2 k) (firstn 2 k')   (* RENAME TO stays in its schema *)
  | SetComment k _ => Nat.eqb (length k) 3 && match lookup (live st) k with Some _ => true | None => false end
  | DropSchema _ _ => true
  | _ => false
  end.
Fixpoint dom_from (st : state) (h : list op) : bool :=
  match h with [] => true | o :: r => dom_at st o && dom_from (step st o) r end.
Definition dom (h : list op) : bool := dom_from init h.

(* ---- transactions (one session): DuckDB's DDL is transactional and the side-table writes go through the same
   engine connection (cursor.py: self._duck_conn), so ROLLBACK takes both back together ---- *)
Inductive top := Stmt (o : op) | TBegin | TCommit | TRollback.
Record tstate := { cur : state; saved : option state }.
Definition tinit : tstate := {| cur := init; saved := None |}.
Definition tstep (ts : tstate) (o : top) : tstate :=
  match o with
  | Stmt o => {| cur := step (cur ts) o; saved := saved ts |}
  | TBegin => match saved ts with None => {| cur := cur ts; saved := Some (cur ts) |} | Some _ => ts end
  | TCommit => {| cur := cur ts; saved := None |}
  | TRollback => match saved ts with Some s => {| cur := s; saved := None |} | None => ts end
  end.
Definition trun (h : list top) : tstate := fold_left tstep h tinit.
Definition tdom_at (ts : tstate) (o : top) : bool :=
  match o with
  | Stmt o => dom_at (cur ts) o
  | TBegin => match saved ts with None => true | Some _ => false end      (* BEGIN inside a transaction: engine error *)
  | TCommit | TRollback => true
  end.
Fixpoint tdom_from (ts : tstate) (h : list top) : bool :=
  match h with [] => true | o :: r => tdom_at ts o && tdom_from (tstep ts o) r end.
Definition tdom (h : list top) : bool := tdom_from tinit h.

(* ---- sexp ---- *)
Definition dec_key (x : sexp) : option key := dec_list dec_str x.
Definition dec_ctype (x : sexp) : option ctype :=
  match x with L [A 0; d] => option_map TText (dec_opt dec_z d) | L [A 1; A z] => Some (TOther z) | _ => None end.
Definition dec_col (x : sexp) : option coldef :=
  match x with L [n; t] => match dec_str n, dec_ctype t with Some n, Some t => Some {| cname := n; cty := t |} | _, _ => None end | _ => None end.
Definition dec_mop (x : sexp) : option op :=
  match x with
  | L [A 0; r; k; cols; cm] => match dec_bool r, dec_key k, dec_list dec_col cols, dec_opt dec_str cm with
                               | Some r, Some k, Some cols, Some cm => Some (Create r k cols cm) | _, _, _, _ => None end
  | L [A 1; k] => option_map Drop (dec_key k)
  | L [A 2; d; s] => match dec_str d, dec_str s with Some d, Some s => Some (DropSchema d s) | _, _ => None end
  | L [A 3; k; c] => match dec_key k, dec_str c with Some k, Some c => Some (SetComment k c) | _, _ => None end
  | L [A 4; k; c] => match dec_key k, dec_col c with Some k, Some c => Some (AddColumn k c) | _, _ => None end
  | L [A 5; k; c] => match dec_key k, dec_str c with Some k, Some c => Some (DropColumn k c) | _, _ => None end
  | L [A 6; k; c; c'] => match dec_key k, dec_str c, dec_str c' with Some k, Some c, Some c' => Some (RenameColumn k c c') | _, _, _ => None end
  | L [A 7; k; k'] => match dec_key k, dec_key k' with Some k, Some k' => Some (RenameTable k k') | _, _ => None end
  | L [A 8; k; s] => match dec_key k, dec_key s with Some k, Some s => Some (Clone k s) | _, _ => None end
  | _ => None
  end.
Definition dec_top (x : sexp) : option top :=
  match x with
  | L [A 9] => Some TBegin
  | L [A 10] => Some TCommit
  | L [A 11] => Some TRollback
  | _ => option_map Stmt (dec_mop x)
  end.
Definition enc_ty (t : Z + Z) : sexp := match t with inl n => L [A 0; A n] | inr z => L [A 1; A z] end.
Definition enc_table (st : state) (k : key) : sexp :=
  L [enc_list enc_str k;
     enc_opt enc_str (comment_fake st k);
     enc_opt (enc_list (fun p => L [enc_str (fst p); enc_ty (snd p)])) (describe_fake st k);
     match lookup (live st) k with
     | Some t => enc_list (fun c => L [enc_str (cname c); enc_opt A (len_fake st k (cname c))]) (tcols t)
     | None => L [] end;
     enc_opt enc_str (comment_spec st k);
     enc_opt (enc_list (fun p => L [enc_str (fst p); enc_ty (snd p)])) (describe_spec st k)].
(* input: (ops...) ; output: after EVERY op, for every live table: (key comment describe lengths spec-comment spec-describe), plus dom *)
Fixpoint trace (ts : tstate) (h : list top) : list sexp :=
  match h with
  | [] => []
  | o :: r => let ts' := tstep ts o in L (map (fun p => enc_table (cur ts') (fst p)) (live (cur ts'))) :: trace ts' r
  end.
Definition run_c09 (x : sexp) : sexp :=
  match dec_list dec_top x with
  | Some h => L [enc_bool (tdom h); L (trace tinit h)]
  | None => bad
  end.
