(* Model for C17: the Snowflake wire layout the HTTP server builds for temporal columns
   (arrow.py:74-106 after fixes 244405c, b361933), the connector's decoding, and the server's
   session/token table (server.py:23-50,104-115). Timestamps are integer microseconds since the epoch. *)
From FS Require Import Sexp.

Definition M6 : Z := 1000000.
(* pyarrow.compute on int64 microsecond values, as arrow.py uses them (that pyarrow itself behaves like this is what the C17 run compares
   on thousands of timestamps); the body of timestamp_to_sf_struct is re-read from arrow.py on every run, emitted in these combinators and
   proved equal to epoch / fraction below (generated theorem arrow_matches_source) *)
Definition pa_floor_second (t : Z) : Z := (t / M6) * M6.         (* pc.floor_temporal(ts, unit="second") *)
Definition pa_divide (a b : Z) : Z := Z.quot a b.                 (* pc.divide on integers truncates *)
Definition pa_multiply (a b : Z) : Z := a * b.
Definition pa_subtract (a b : Z) : Z := a - b.
Definition pa_add (a b : Z) : Z := a + b.
Definition pa_int32 (a : Z) : Z := a.                             (* .cast(pa.int32()): must not overflow - fraction_fits_int32 *)
Definition floor_sec (t : Z) : Z := pa_floor_second t.
Definition epoch (t : Z) : Z := pa_divide (pa_floor_second t) 1000000.
Definition fraction (t : Z) : Z := pa_int32 (pa_multiply (pa_subtract t (pa_floor_second t)) 1000).    (* integer nanoseconds within the second *)
(* the connector: seconds + nanoseconds -> microseconds *)
Definition decode_ts (e f : Z) : Z := e * M6 + f / 1000.

(* a NULL timestamp is a NULL struct (validity mask) *)
Definition encode_ts (v : option Z) : option (Z * Z) := option_map (fun t => (epoch t, fraction t)) v.
Definition decode_ts_opt (w : option (Z * Z)) : option Z := option_map (fun ef => decode_ts (fst ef) (snd ef)) w.

(* TIME: microseconds -> nanoseconds as int64 *)
Definition encode_time (us : Z) : Z := us * 1000.
Definition decode_time (ns : Z) : Z := ns / 1000.

(* ---- sessions ---- *)
Inductive kind := Shared | Isolated | Path (p : str).
Record session := { token : str; instance : nat }.
Record srv := { sessions : list session; next_instance : nat }.      (* instance 0 = the shared one *)
Definition srv0 : srv := {| sessions := []; next_instance := 1 |}.

(* login: a new session; shared logins use instance 0, every other login a new instance *)
Definition login (s : srv) (k : kind) (tok : str) : srv :=
  match k with
  | Shared => {| sessions := {| token := tok; instance := 0 |} :: sessions s; next_instance := next_instance s |}
  | _ => {| sessions := {| token := tok; instance := next_instance s |} :: sessions s;
            next_instance := S (next_instance s) |}
  end.

(* auth[17:-1] of  Snowflake Token="<token>"  *)
Definition extract (auth : str) : str := removelast (skipn 17 auth).

Fixpoint lookup (l : list session) (tok : str) : option session :=
  match l with [] => None | x :: r => if str_eqb (token x) tok then Some x else lookup r tok end.

Inductive answer := Conn (x : session) | Refused (status code : Z).
Definition to_conn (s : srv) (auth : option str) : answer :=
  match auth with
  | None | Some [] => Refused 401 390103
  | Some a => match lookup (sessions s) (extract a) with Some x => Conn x | None => Refused 401 390104 end
  end.

(* ---- sexp ---- *)
Definition run_c17_ts (x : sexp) : sexp :=
  match dec_opt dec_z x with
  | Some v => L [match encode_ts v with Some (e, f) => L [A e; A f] | None => L [] end; enc_opt A (decode_ts_opt (encode_ts v))]
  | None => bad
  end.
