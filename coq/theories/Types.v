(* Model for C06 (and C01): DuckDB result types, fakesnow's DuckDB->Snowflake metadata table
   (types.py:21-89) and the Python kind that Arrow's to_pylist yields for each type
   (cursor.py:395-415). *)
From FS Require Import Sexp.

Inductive dtype :=
| DBigint | DInteger | DDecimal (p s : Z) | DDouble | DVarchar | DBoolean | DDate | DTime
| DTimestamp | DTimestampNs | DTimestampTz | DBlob | DJson
| DOther (code : Z).      (* HUGEINT, UBIGINT, TINYINT, UUID, lists, ...: not in the table *)

Inductive sfkind := Fixed | Real | Text | SfDate | SfTime | TsNtz | TsTz | Binary | Variant | SfBoolean.

Record meta := { kind : sfkind; precision : option Z; scale : option Z; size : option Z }.

Definition mk (k : sfkind) (p s z : option Z) : meta := {| kind := k; precision := p; scale := s; size := z |}.

(* the source's dict duckdb_to_sf_type, as (DuckDB type name, Snowflake type name) pairs - compared
   with the dict parsed from /repo's types.py on every run *)
Definition table : list (str * str) :=
  [(lit "BIGINT", lit "fixed"); (lit "BLOB", lit "binary"); (lit "BOOLEAN", lit "boolean"); (lit "DATE", lit "date");
   (lit "DECIMAL", lit "fixed"); (lit "DOUBLE", lit "real"); (lit "INTEGER", lit "fixed"); (lit "JSON", lit "variant");
   (lit "TIME", lit "time"); (lit "TIMESTAMP WITH TIME ZONE", lit "timestamp_tz"); (lit "TIMESTAMP_NS", lit "timestamp_ntz");
   (lit "TIMESTAMP", lit "timestamp_ntz"); (lit "VARCHAR", lit "text")].

Definition sf_meta (t : dtype) : option meta :=
  match t with
  | DBigint | DInteger => Some (mk Fixed (Some 38) (Some 0) None)
  | DDecimal p s => Some (mk Fixed (Some p) (Some s) None)
  | DDouble => Some (mk Real None None None)
  | DVarchar => Some (mk Text None None (Some 16777216))
  | DBoolean => Some (mk SfBoolean None None None)
  | DDate => Some (mk SfDate None None None)
  | DTime => Some (mk SfTime (Some 0) (Some 9) None)
  | DTimestamp | DTimestampNs => Some (mk TsNtz (Some 0) (Some 9) None)
  | DTimestampTz => Some (mk TsTz (Some 0) (Some 9) None)
  | DBlob => Some (mk Binary None None (Some 8388608))
  | DJson => Some (mk Variant None None None)
  | DOther _ => None
  end.

Inductive pykind := PInt | PDecimal | PFloat | PStr | PDate | PTime | PNaive | PAware | PBytes | PBool.

(* what the fetch calls return for a non-NULL value of the type *)
Definition py_kind (t : dtype) : option pykind :=
  match t with
  | DBigint | DInteger => Some PInt
  | DDecimal _ _ => Some PDecimal
  | DDouble => Some PFloat
  | DVarchar | DJson => Some PStr
  | DBoolean => Some PBool
  | DDate => Some PDate
  | DTime => Some PTime
  | DTimestamp | DTimestampNs => Some PNaive
  | DTimestampTz => Some PAware
  | DBlob => Some PBytes
  | DOther _ => None
  end.

(* what the Snowflake connector documents for a result column with this metadata *)
Definition expected_py (m : meta) : pykind :=
  match kind m with
  | Fixed => match scale m with Some s => if s =? 0 then PInt else PDecimal | None => PInt end
  | Real => PFloat | Text | Variant => PStr | SfDate => PDate | SfTime => PTime
  | TsNtz => PNaive | TsTz => PAware | Binary => PBytes | SfBoolean => PBool
  end.

(* description of a result: one entry per column, in order *)
Definition describe (cols : list (str * dtype)) : option (list (str * meta)) :=
  fold_right (fun c acc => match sf_meta (snd c), acc with
                           | Some m, Some l => Some ((fst c, m) :: l)
                           | _, _ => None end) (Some []) cols.

(* ---- information_schema.columns as the view _fs_columns_snowflake (info_schema.py:36-66, after fix 414aff9) computes it from DuckDB's own
   information_schema.columns: data_type through a CASE of (prefix | equality) arms, numeric_precision / numeric_scale
   through their own CASEs. The arms are data, compared with the SQL text of /repo's info_schema.py on every run. ---- *)
Definition duck_base (t : dtype) : option str :=        (* DuckDB's data_type text; DECIMAL is followed by "(p,s)" *)
  match t with
  | DBigint => Some (lit "BIGINT") | DInteger => Some (lit "INTEGER") | DDecimal _ _ => Some (lit "DECIMAL")
  | DDouble => Some (lit "DOUBLE") | DVarchar => Some (lit "VARCHAR") | DBoolean => Some (lit "BOOLEAN")
  | DDate => Some (lit "DATE") | DTime => Some (lit "TIME") | DTimestamp => Some (lit "TIMESTAMP")
  | DTimestampNs => Some (lit "TIMESTAMP_NS") | DTimestampTz => Some (lit "TIMESTAMP WITH TIME ZONE")
  | DBlob => Some (lit "BLOB") | DJson => Some (lit "JSON") | DOther _ => None
  end.
Definition is_decimal (t : dtype) : bool := match t with DDecimal _ _ => true | _ => false end.
Definition duck_prec (t : dtype) : option Z :=
  match t with DBigint => Some 64 | DInteger => Some 32 | DDecimal p _ => Some p | DDouble => Some 53 | _ => None end.
Definition duck_scale (t : dtype) : option Z :=
  match t with DBigint | DInteger => Some 0 | DDecimal _ s => Some s | DDouble => Some 0 | _ => None end.

Fixpoint prefixb (p s : str) : bool :=
  match p, s with
  | [], _ => true
  | x :: p', y :: s' => Z.eqb x y && prefixb p' s'
  | _ :: _, [] => false
  end.

(* (is a starts_with test, pattern, result) in CASE order *)
Definition name_arms : list (bool * str * str) :=
  [(true, lit "DECIMAL", lit "NUMBER"); (false, lit "BIGINT", lit "NUMBER"); (false, lit "INTEGER", lit "NUMBER"); (false, lit "VARCHAR", lit "TEXT"); (false, lit "DOUBLE", lit "FLOAT");
   (false, lit "BLOB", lit "BINARY"); (false, lit "TIMESTAMP", lit "TIMESTAMP_NTZ"); (false, lit "TIMESTAMP WITH TIME ZONE", lit "TIMESTAMP_TZ");
   (false, lit "JSON", lit "VARIANT")].
Definition prec_arms : list (str * option Z) := [(lit "BIGINT", Some 38); (lit "INTEGER", Some 38); (lit "DOUBLE", None)].
Definition scale_arms : list (str * option Z) := [(lit "DOUBLE", None)].

Definition arm_hit (dec : bool) (base : str) (a : bool * str * str) : bool :=
  if fst (fst a) then prefixb (snd (fst a)) base else negb dec && str_eqb (snd (fst a)) base.
Definition eq_hit (dec : bool) (base : str) (a : str * option Z) : bool := negb dec && str_eqb (fst a) base.

Definition info_name (t : dtype) : option str :=
  option_map (fun b => match find (arm_hit (is_decimal t) b) name_arms with Some a => snd a | None => b end) (duck_base t).
Definition info_prec (t : dtype) : option Z :=
  match duck_base t with
  | Some b => match find (eq_hit (is_decimal t) b) prec_arms with Some a => snd a | None => duck_prec t end
  | None => None end.
Definition info_scale (t : dtype) : option Z :=
  match duck_base t with
  | Some b => match find (eq_hit (is_decimal t) b) scale_arms with Some a => snd a | None => duck_scale t end
  | None => None end.

(* the Snowflake type name of a result-metadata kind (what SHOW COLUMNS / information_schema print for it) *)
Definition sf_name (k : sfkind) : str :=
  match k with
  | Fixed => lit "NUMBER" | Real => lit "FLOAT" | Text => lit "TEXT" | SfDate => lit "DATE" | SfTime => lit "TIME"
  | TsNtz => lit "TIMESTAMP_NTZ" | TsTz => lit "TIMESTAMP_TZ" | Binary => lit "BINARY" | Variant => lit "VARIANT" | SfBoolean => lit "BOOLEAN"
  end.
(* column types Snowflake DDL and queries can give a table here: everything but the nanosecond timestamp (only reachable through DuckDB syntax) *)
Definition column_dom (t : dtype) : bool := match t with DTimestampNs => false | _ => true end.

(* ---- the same metadata, computed the way types.py:describe_as_rowtype writes it: the dict gives the Snowflake type name, then an
   if/elif chain over the DuckDB type text and that name fills in precision / scale / length. The chain is data here (meta_rules), compared
   with the source's chain on every run (generated theorem meta_rules_match_source), and proved to give sf_meta (sf_meta_by_rules). ---- *)
Inductive rcond := CDecimal | CTypeIs (s : str) | CTypePrefix (s : str).
Inductive rval := RFromType (default_p default_s : Z)        (* precision, scale read from the type text "DECIMAL(p,s)" *)
                | RConst (p s len : option Z).               (* len = byteLength = length *)
Definition meta_rules : list (rcond * rval) :=
  [(CDecimal, RFromType 38 0);
   (CTypeIs (lit "fixed"), RConst (Some 38) (Some 0) None);
   (CTypeIs (lit "text"), RConst None None (Some 16777216));
   (CTypePrefix (lit "time"), RConst (Some 0) (Some 9) None);
   (CTypeIs (lit "binary"), RConst None None (Some 8388608))].

Fixpoint lookup_table (l : list (str * str)) (k : str) : option str :=
  match l with [] => None | (a, b) :: r => if str_eqb a k then Some b else lookup_table r k end.
Definition kind_of_name (n : str) : option sfkind :=
  if str_eqb n (lit "fixed") then Some Fixed else if str_eqb n (lit "real") then Some Real else if str_eqb n (lit "text") then Some Text
  else if str_eqb n (lit "date") then Some SfDate else if str_eqb n (lit "time") then Some SfTime
  else if str_eqb n (lit "timestamp_ntz") then Some TsNtz else if str_eqb n (lit "timestamp_tz") then Some TsTz
  else if str_eqb n (lit "binary") then Some Binary else if str_eqb n (lit "variant") then Some Variant
  else if str_eqb n (lit "boolean") then Some SfBoolean else None.
Definition rule_hit (t : dtype) (sf : str) (c : rcond) : bool :=
  match c with CDecimal => is_decimal t | CTypeIs s => str_eqb sf s | CTypePrefix s => prefixb s sf end.
Definition rule_value (t : dtype) (v : rval) : option Z * option Z * option Z :=
  match v with
  | RFromType dp ds => match t with DDecimal p s => (Some p, Some s, None) | _ => (Some dp, Some ds, None) end
  | RConst p s len => (p, s, len)
  end.
Definition sf_meta_rules (t : dtype) : option meta :=
  match duck_base t with
  | None => None
  | Some b =>
      match lookup_table table b with
      | None => None
      | Some sf =>
          match kind_of_name sf with
          | None => None
          | Some k =>
              let '(p, s, len) := match find (fun r => rule_hit t sf (fst r)) meta_rules with
                                  | Some r => rule_value t (snd r) | None => (None, None, None) end in
              Some (mk k p s len)
          end
      end
  end.

(* ---- sexp ---- *)
Definition dec_dtype (x : sexp) : option dtype :=
  match x with
  | L [A 0] => Some DBigint | L [A 1] => Some DInteger
  | L [A 2; A p; A s] => Some (DDecimal p s)
  | L [A 3] => Some DDouble | L [A 4] => Some DVarchar | L [A 5] => Some DBoolean | L [A 6] => Some DDate
  | L [A 7] => Some DTime | L [A 8] => Some DTimestamp | L [A 9] => Some DTimestampNs | L [A 10] => Some DTimestampTz
  | L [A 11] => Some DBlob | L [A 12] => Some DJson | L [A 13; A c] => Some (DOther c)
  | _ => None
  end.
Definition enc_kind (k : sfkind) : sexp :=
  A (match k with Fixed => 0 | Real => 1 | Text => 2 | SfDate => 3 | SfTime => 12 | TsNtz => 8 | TsTz => 7
              | Binary => 11 | Variant => 5 | SfBoolean => 13 end).     (* the connector's type codes *)
Definition enc_meta (m : meta) : sexp :=
  L [enc_kind (kind m); enc_opt A (precision m); enc_opt A (scale m); enc_opt A (size m)].
Definition enc_py (k : pykind) : sexp :=
  A (match k with PInt => 0 | PDecimal => 1 | PFloat => 2 | PStr => 3 | PDate => 4 | PTime => 5 | PNaive => 6
              | PAware => 7 | PBytes => 8 | PBool => 9 end).

(* input: dtype ; output: (meta? pykind?) *)
Definition run_c06_type (x : sexp) : sexp :=
  match dec_dtype x with
  | Some t => L [enc_opt enc_meta (sf_meta t); enc_opt enc_py (py_kind t)]
  | None => bad
  end.
Definition run_c06_table (_ : sexp) : sexp := enc_list (fun p => L [enc_str (fst p); enc_str (snd p)]) table.

(* input: (dtype ...) ; output per type: (info-name info-precision info-scale description-name description-precision description-scale in-column-dom) *)
Definition run_c09_types (x : sexp) : sexp :=
  match dec_list dec_dtype x with
  | Some ts => enc_list (fun t => L [enc_opt enc_str (info_name t); enc_opt A (info_prec t); enc_opt A (info_scale t);
                                     enc_opt (fun m => enc_str (sf_name (kind m))) (sf_meta t);
                                     enc_opt A (match sf_meta t with Some m => precision m | None => None end);
                                     enc_opt A (match sf_meta t with Some m => scale m | None => None end);
                                     enc_bool (column_dom t)]) ts
  | None => bad
  end.
Definition run_c09_arms (_ : sexp) : sexp :=
  L [enc_list (fun a => L [enc_bool (fst (fst a)); enc_str (snd (fst a)); enc_str (snd a)]) name_arms;
     enc_list (fun a => L [enc_str (fst a); enc_opt A (snd a)]) prec_arms;
     enc_list (fun a => L [enc_str (fst a); enc_opt A (snd a)]) scale_arms].
