(* Model for C06 (and C01): DuckDB result types, fakesnow's DuckDB->Snowflake metadata table
   (types.py:21-89) and the Python kind that Arrow's to_pylist yields for each type
   (cursor.py:395-415). *)
From FS Require Import Sexp.

Inductive dtype :=
| DBigint | DInteger | DDecimal (p s : Z) | DDouble | DVarchar | DBoolean | DDate | DTime
| DTimestamp | DTimestampNs | DTimestampTz | DBlob | DJson
| DOther (code : Z).      (* HUGEINT, UBIGINT, TINYINT, UUID, lists, ...: not in the table *)

Inductive sfkind := Fixed | Real | Text | SfDate | SfTime | TsNtz | TsTz | Binary | Variant | SfBoolean.

Record meta := { kind : sfkind; precision : option Z; scale : option Z; size : option Z }.

Definition mk (k : sfkind) (p s z : option Z) : meta := {| kind := k; precision := p; scale := s; size := z |}.

(* the source's dict duckdb_to_sf_type, as (DuckDB type name, Snowflake type name) pairs - compared
   with the dict parsed from /repo's types.py on every run *)
Definition table : list (str * str) :=
  [(lit "BIGINT", lit "fixed"); (lit "BLOB", lit "binary"); (lit "BOOLEAN", lit "boolean"); (lit "DATE", lit "date");
   (lit "DECIMAL", lit "fixed"); (lit "DOUBLE", lit "real"); (lit "INTEGER", lit "fixed"); (lit "JSON", lit "variant");
   (lit "TIME", lit "time"); (lit "TIMESTAMP WITH TIME ZONE", lit "timestamp_tz"); (lit "TIMESTAMP_NS", lit "timestamp_ntz");
   (lit "TIMESTAMP", lit "timestamp_ntz"); (lit "VARCHAR", lit "text")].

Definition sf_meta (t : dtype) : option meta :=
  match t with
  | DBigint | DInteger => Some (mk Fixed (Some 38) (Some 0) None)
  | DDecimal p s => Some (mk Fixed (Some p) (Some s) None)
  | DDouble => Some (mk Real None None None)
  | DVarchar => Some (mk Text None None (Some 16777216))
  | DBoolean => Some (mk SfBoolean None None None)
  | DDate => Some (mk SfDate None None None)
  | DTime => Some (mk SfTime (Some 0) (Some 9) None)
  | DTimestamp | DTimestampNs => Some (mk TsNtz (Some 0) (Some 9) None)
  | DTimestampTz => Some (mk TsTz (Some 0) (Some 9) None)
  | DBlob => Some (mk Binary None None (Some 8388608))
  | DJson => Some (mk Variant None None None)
  | DOther _ => None
  end.

Inductive pykind := PInt | PDecimal | PFloat | PStr | PDate | PTime | PNaive | PAware | PBytes | PBool.

(* what the fetch calls return for a non-NULL value of the type *)
Definition py_kind (t : dtype) : option pykind :=
  match t with
  | DBigint | DInteger => Some PInt
  | DDecimal _ _ => Some PDecimal
  | DDouble => Some PFloat
  | DVarchar | DJson => Some PStr
  | DBoolean => Some PBool
  | DDate => Some PDate
  | DTime => Some PTime
  | DTimestamp | DTimestampNs => Some PNaive
  | DTimestampTz => Some PAware
  | DBlob => Some PBytes
  | DOther _ => None
  end.

(* what the Snowflake connector documents for a result column with this metadata *)
Definition expected_py (m : meta) : pykind :=
  match kind m with
  | Fixed => match scale m with Some s => if s =? 0 then PInt else PDecimal | None => PInt end
  | Real => PFloat | Text | Variant => PStr | SfDate => PDate | SfTime => PTime
  | TsNtz => PNaive | TsTz => PAware | Binary => PBytes | SfBoolean => PBool
  end.

(* description of a result: one entry per column, in order *)
Definition describe (cols : list (str * dtype)) : option (list (str * meta)) :=
  fold_right (fun c acc => match sf_meta (snd c), acc with
                           | Some m, Some l => Some ((fst c, m) :: l)
                           | _, _ => None end) (Some []) cols.

(* ---- sexp ---- *)
Definition dec_dtype (x : sexp) : option dtype :=
  match x with
  | L [A 0] => Some DBigint | L [A 1] => Some DInteger
  | L [A 2; A p; A s] => Some (DDecimal p s)
  | L [A 3] => Some DDouble | L [A 4] => Some DVarchar | L [A 5] => Some DBoolean | L [A 6] => Some DDate
  | L [A 7] => Some DTime | L [A 8] => Some DTimestamp | L [A 9] => Some DTimestampNs | L [A 10] => Some DTimestampTz
  | L [A 11] => Some DBlob | L [A 12] => Some DJson | L [A 13; A c] => Some (DOther c)
  | _ => None
  end.
Definition enc_kind (k : sfkind) : sexp :=
  A (match k with Fixed => 0 | Real => 1 | Text => 2 | SfDate => 3 | SfTime => 12 | TsNtz => 8 | TsTz => 7
              | Binary => 11 | Variant => 5 | SfBoolean => 13 end).     (* the connector's type codes *)
Definition enc_meta (m : meta) : sexp :=
  L [enc_kind (kind m); enc_opt A (precision m); enc_opt A (scale m); enc_opt A (size m)].
Definition enc_py (k : pykind) : sexp :=
  A (match k with PInt => 0 | PDecimal => 1 | PFloat => 2 | PStr => 3 | PDate => 4 | PTime => 5 | PNaive => 6
              | PAware => 7 | PBytes => 8 | PBool => 9 end).

(* input: dtype ; output: (meta? pykind?) *)
Definition run_c06_type (x : sexp) : sexp :=
  match dec_dtype x with
  | Some t => L [enc_opt enc_meta (sf_meta t); enc_opt enc_py (py_kind t)]
  | None => bad
  end.
Definition run_c06_table (_ : sexp) : sexp := enc_list (fun p => L [enc_str (fst p); enc_str (snd p)]) table.
