(* Model of FakeSnowflakeConnection.__init__ (fakesnow/conn.py:44-104, after fixes 517b544, fbaffcb)
   over an abstract engine catalog.  Names are compared after upper-casing, as the code does with
   upper(catalog_name) / upper(schema_name). *)
From FS Require Import Sexp.

Definition s_main : str := Eval compute in lit "MAIN".
Definition s_info : str := Eval compute in lit "INFORMATION_SCHEMA".
Definition s_pg : str := Eval compute in lit "PG_CATALOG".
Definition s_memory : str := Eval compute in lit "memory".
Definition builtin : list str := [s_main; s_info; s_pg].

Definition mem (x : str) (l : list str) : bool := existsb (str_eqb x) l.

(* dbs: every database this instance can see - attached, or (db_path mode) present as a file;
   attached: the databases currently attached to the instance's engine *)
Record world := { dbs : list (str * list str); attached : list str }.

Fixpoint schemas_of (l : list (str * list str)) (d : str) : option (list str) :=
  match l with
  | [] => None
  | (d', ss) :: r => if str_eqb d' d then Some ss else schemas_of r d
  end.

Definition db_exists (w : world) (d : str) : bool := mem d (attached w).
Definition schema_exists (w : world) (d s : str) : bool :=
  db_exists w d && match schemas_of (dbs w) d with Some ss => mem s ss | None => false end.

(* engine calls; None = the engine raises *)
Definition attach_if_not_exists (w : world) (d : str) : option world :=
  if db_exists w d then Some w
  else match schemas_of (dbs w) d with
       | Some _ => Some {| dbs := dbs w; attached := attached w ++ [d] |}            (* existing file *)
       | None => Some {| dbs := dbs w ++ [(d, builtin)]; attached := attached w ++ [d] |}
       end.

Fixpoint add_schema (l : list (str * list str)) (d s : str) : list (str * list str) :=
  match l with
  | [] => []
  | (d', ss) :: r => if str_eqb d' d then (d', if mem s ss then ss else ss ++ [s]) :: r
                     else (d', ss) :: add_schema r d s
  end.
Definition create_schema_if_not_exists (w : world) (d s : str) : option world :=
  if db_exists w d then Some {| dbs := add_schema (dbs w) d s; attached := attached w |} else None.
Definition set_schema (w : world) (d s : str) : option unit :=
  if schema_exists w d s then Some tt else None.

Record cfg := { database : option str; schema : option str; create_db : bool; create_sch : bool }.
Record session := {
  sdb : option str; ssch : option str; db_set : bool; sch_set : bool;
  duck : option (str * str)   (* the engine's SET schema for this connection; None = memory.main *)
}.

Definition truthy (o : option str) : option str := match o with Some (c :: s) => Some (c :: s) | _ => None end.

Definition connect (w : world) (c : cfg) : option (world * session) :=
  let db := option_map upper (database c) in
  let sch := option_map upper (schema c) in
  (* create database if needed *)
  let w1 := match truthy db with
            | Some d => if create_db c && negb (db_exists w d) then attach_if_not_exists w d else Some w
            | None => Some w
            end in
  match w1 with
  | None => None
  | Some w1 =>
      (* create schema if needed *)
      let w2 := match truthy db, truthy sch with
                | Some d, Some s =>
                    if create_sch c && negb (schema_exists w1 d s) && db_exists w1 d
                    then create_schema_if_not_exists w1 d s else Some w1
                | _, _ => Some w1
                end in
      match w2 with
      | None => None
      | Some w2 =>
          match truthy db, truthy sch with
          | Some d, Some s =>
              if schema_exists w2 d s then
                match set_schema w2 d s with
                | Some _ => Some (w2, {| sdb := db; ssch := sch; db_set := true; sch_set := true; duck := Some (d, s) |})
                | None => None
                end
              else if db_exists w2 d then
                match set_schema w2 d s_main with
                | Some _ => Some (w2, {| sdb := db; ssch := sch; db_set := true; sch_set := false; duck := Some (d, s_main) |})
                | None => None
                end
              else Some (w2, {| sdb := db; ssch := sch; db_set := false; sch_set := false; duck := None |})
          | Some d, None =>
              if db_exists w2 d then
                match set_schema w2 d s_main with
                | Some _ => Some (w2, {| sdb := db; ssch := sch; db_set := true; sch_set := false; duck := Some (d, s_main) |})
                | None => None
                end
              else Some (w2, {| sdb := db; ssch := sch; db_set := false; sch_set := false; duck := None |})
          | None, _ => Some (w2, {| sdb := db; ssch := sch; db_set := false; sch_set := false; duck := None |})
          end
      end
  end.

(* ---- sexp ---- *)
Definition enc_session (s : session) : sexp :=
  L [enc_opt enc_str (sdb s); enc_opt enc_str (ssch s); enc_bool (db_set s); enc_bool (sch_set s);
     match duck s with Some (d, x) => L [enc_str d; enc_str x] | None => L [] end].
Definition enc_world (w : world) : sexp :=
  L [enc_list (fun p => L [enc_str (fst p); enc_list enc_str (snd p)]) (dbs w); enc_list enc_str (attached w)].
Definition dec_cfg (x : sexp) : option cfg :=
  match x with
  | L [d; s; cd; cs] =>
      match dec_opt dec_str d, dec_opt dec_str s, dec_bool cd, dec_bool cs with
      | Some d, Some s, Some cd, Some cs => Some {| database := d; schema := s; create_db := cd; create_sch := cs |}
      | _, _, _, _ => None
      end
  | _ => None
  end.
Definition dec_world (x : sexp) : option world :=
  match x with
  | L [ds; at_] =>
      match dec_list (fun p => match p with
                               | L [d; ss] => match dec_str d, dec_list dec_str ss with
                                              | Some d, Some ss => Some (d, ss) | _, _ => None end
                               | _ => None end) ds, dec_list dec_str at_ with
      | Some ds, Some a => Some {| dbs := ds; attached := a |}
      | _, _ => None
      end
  | _ => None
  end.

Fixpoint connects (w : world) (cs : list cfg) : list sexp * world :=
  match cs with
  | [] => ([], w)
  | c :: r => match connect w c with
              | None => ([L [A 0]], w)
              | Some (w', s) => let '(o, wf) := connects w' r in (L [A 1; enc_session s] :: o, wf)
              end
  end.

(* input: (world (cfg ...)) ; output: ((outcome ...) world) *)
Definition run_c14 (x : sexp) : sexp :=
  match x with
  | L [w; cs] =>
      match dec_world w, dec_list dec_cfg cs with
      | Some w, Some cs => let '(o, wf) := connects w cs in L [L o; enc_world wf]
      | _, _ => bad
      end
  | _ => bad
  end.
